package load

import (
	"fmt"
	"go/token"
	"go/types"
	"os"
	"sort"
	"strings"

	"golang.org/x/tools/go/ssa"
)

// Forwarders: a function of the repository whose whole body is one call that
// hands its parameters (and constants) on to another function and returns that
// call's results - the production half of a test seam such as
//
//	type fileSystem interface{ WriteFile(name string, data []byte, perm fs.FileMode) error }
//	type osFileSystem struct{}
//	func (osFileSystem) WriteFile(n string, d []byte, p fs.FileMode) error { return os.WriteFile(n, d, p) }
//
// A call of such a function is, for every input, the call it forwards to. The
// loader therefore rewrites every call site of a forwarder (static calls, and
// interface method calls all of whose implementations in the module are
// forwarders to the same function with the same argument mapping) into the
// forwarded call, so that every rule sees os.WriteFile(path, data, perm) at the
// place where the repository asks for it. The rewriting is recorded in
// Program.Forwarded and reported in the evidence.

type argSrc struct {
	param int       // index into the forwarder's Params, or -1
	konst ssa.Value // constant handed on instead of a parameter
}

type forwarder struct {
	target *ssa.Function
	args   []argSrc
}

// forwarderOf analyses fn; nil when fn is not a forwarder.
func (p *Program) forwarderOf(fn *ssa.Function, memo map[*ssa.Function]*forwarder, busy map[*ssa.Function]bool) *forwarder {
	if f, ok := memo[fn]; ok {
		return f
	}
	if busy[fn] || fn == nil || len(fn.Blocks) == 0 || len(fn.Blocks) > 7 || len(fn.FreeVars) > 0 {
		return nil
	}
	busy[fn] = true
	defer delete(busy, fn)
	res := p.forwarderOf1(fn, memo, busy)
	memo[fn] = res
	return res
}

func (p *Program) forwarderOf1(fn *ssa.Function, memo map[*ssa.Function]*forwarder, busy map[*ssa.Function]bool) *forwarder {
	paramIdx := func(v ssa.Value) int {
		for i, q := range fn.Params {
			if ssa.Value(q) == v {
				return i
			}
		}
		return -1
	}
	isMethod := fn.Signature.Recv() != nil
	var call, nilchk *ssa.Call
	var rets []*ssa.Return
	logs, plumbing := 0, 0
	isRecv := func(v ssa.Value) bool {
		return paramIdx(v) == 0 || (nilchk != nil && v == ssa.Value(nilchk))
	}
	for _, b := range fn.Blocks {
		for _, in := range b.Instrs {
			switch x := in.(type) {
			case *ssa.DebugRef, *ssa.Extract, *ssa.Jump:
			case *ssa.Call:
				if bi, ok := x.Call.Value.(*ssa.Builtin); ok && bi.Name() == "ssa:wrapnilchk" && len(x.Call.Args) > 0 && paramIdx(x.Call.Args[0]) == 0 {
					nilchk = x // the nil check of a synthetic pointer-receiver wrapper
					continue
				}
				if isLogCall(x) {
					logs++
					continue
				}
				if bi, ok := x.Call.Value.(*ssa.Builtin); ok && (bi.Name() == "len" || bi.Name() == "cap") {
					plumbing++ // a length reported in a log line
					continue
				}
				if call != nil {
					return nil
				}
				call = x
			case *ssa.Alloc, *ssa.IndexAddr, *ssa.Slice, *ssa.Phi, *ssa.Convert:
				// the argument arrays of log calls
				plumbing++
			case *ssa.Store:
				// only into the argument arrays of log calls
				if ia, ok := x.Addr.(*ssa.IndexAddr); !ok {
					return nil
				} else if _, local := ia.X.(*ssa.Alloc); !local {
					return nil
				}
				plumbing++
			case *ssa.Return:
				rets = append(rets, x)
			case *ssa.UnOp:
				// the load of a pointer receiver (synthetic wrapper (*T).M -> (T).M), or of the logger
				if g, isGlobal := x.X.(*ssa.Global); isGlobal && x.Op == token.MUL && isLoggerType(g.Type()) {
					plumbing++
					continue
				}
				if !(x.Op == token.MUL && isMethod && isRecv(x.X)) {
					return nil
				}
			case *ssa.BinOp:
				// err != nil of the hygiene form
				if !(x.Op == token.NEQ || x.Op == token.EQL) {
					return nil
				}
			case *ssa.If:
			case *ssa.MakeInterface, *ssa.ChangeInterface, *ssa.ChangeType:
				// a result handed back as an interface
			default:
				return nil
			}
		}
	}
	if call == nil || call.Call.IsInvoke() || len(rets) == 0 {
		return nil
	}
	if plumbing > 0 && logs == 0 {
		return nil // arrays and stores are only accepted as the arguments of log calls
	}
	g := call.Call.StaticCallee()
	if g == nil || g == fn || len(g.FreeVars) > 0 {
		return nil
	}
	if _, isClosure := call.Call.Value.(*ssa.MakeClosure); isClosure {
		return nil
	}
	// results: every return hands back the call's results (possibly wrapped in an
	// interface), or - on the failing side of the hygiene form - zero values and the error
	fromCall := func(v ssa.Value, idx, n int) bool {
		for {
			switch x := v.(type) {
			case *ssa.MakeInterface:
				v = x.X
				continue
			case *ssa.ChangeInterface:
				v = x.X
				continue
			case *ssa.ChangeType:
				v = x.X
				continue
			}
			break
		}
		if n == 1 {
			return v == ssa.Value(call)
		}
		ex, ok := v.(*ssa.Extract)
		return ok && ex.Tuple == ssa.Value(call) && ex.Index == idx
	}
	nres := fn.Signature.Results().Len()
	if nres != g.Signature.Results().Len() {
		return nil
	}
	whole := 0
	for _, r := range rets {
		if len(r.Results) != nres {
			return nil
		}
		all := true
		for i, v := range r.Results {
			if !fromCall(v, i, nres) {
				all = false
			}
		}
		if all {
			whole++
			continue
		}
		// zero values and the call's error, or results and a nil error
		for i, v := range r.Results {
			if fromCall(v, i, nres) {
				continue
			}
			k, ok := v.(*ssa.Const)
			if !ok || !(k.Value == nil) {
				return nil
			}
		}
	}
	if len(rets) > 1 && logs > 0 {
		// with log lines in between: every branch tests a result of the call against nil
		for _, b := range fn.Blocks {
			iff, ok := b.Instrs[len(b.Instrs)-1].(*ssa.If)
			if !ok {
				continue
			}
			cmp, ok := iff.Cond.(*ssa.BinOp)
			if !ok {
				return nil
			}
			if k, ok := cmp.Y.(*ssa.Const); !ok || k.Value != nil {
				return nil
			}
			if ex, ok := cmp.X.(*ssa.Extract); ok && ex.Tuple == ssa.Value(call) {
				continue
			}
			if cmp.X != ssa.Value(call) {
				return nil
			}
		}
	} else if len(rets) > 1 {
		// hygiene form only: the branch is on the call's last result
		if len(fn.Blocks) != 3 || nres < 2 {
			return nil
		}
		iff, ok := fn.Blocks[0].Instrs[len(fn.Blocks[0].Instrs)-1].(*ssa.If)
		if !ok {
			return nil
		}
		cmp, ok := iff.Cond.(*ssa.BinOp)
		if !ok {
			return nil
		}
		ex, ok := cmp.X.(*ssa.Extract)
		if !ok || ex.Tuple != ssa.Value(call) || ex.Index != nres-1 {
			return nil
		}
		if k, ok := cmp.Y.(*ssa.Const); !ok || k.Value != nil {
			return nil
		}
	} else if whole != 1 || (len(fn.Blocks) != 1 && logs == 0) {
		return nil
	} else if logs > 0 {
		// one return behind log lines that may sit in branches on the call's error
		for _, b := range fn.Blocks {
			iff, ok := b.Instrs[len(b.Instrs)-1].(*ssa.If)
			if !ok {
				continue
			}
			cmp, ok := iff.Cond.(*ssa.BinOp)
			if !ok {
				return nil
			}
			if k, ok := cmp.Y.(*ssa.Const); !ok || k.Value != nil {
				return nil
			}
			if ex, ok := cmp.X.(*ssa.Extract); ok && ex.Tuple == ssa.Value(call) {
				continue
			}
			if cmp.X != ssa.Value(call) {
				return nil
			}
		}
	}
	// arguments
	var args []argSrc
	for ai, a := range call.Call.Args {
		switch x := a.(type) {
		case *ssa.Const:
			args = append(args, argSrc{param: -1, konst: x})
			continue
		case *ssa.UnOp:
			// *recv handed on as the receiver of the wrapped method
			if x.Op == token.MUL && isRecv(x.X) && isMethod && ai == 0 {
				args = append(args, argSrc{param: 0})
				continue
			}
			return nil
		}
		pi := paramIdx(a)
		if pi < 0 {
			return nil
		}
		args = append(args, argSrc{param: pi})
	}
	// the receiver of a forwarding method may only travel on as the receiver of the
	// method it wraps, which must itself be a forwarder that drops it
	inner := p.forwarderOf(g, memo, busy)
	if inner != nil && IsModuleFn(g) {
		var composed []argSrc
		for _, s := range inner.args {
			if s.param < 0 {
				composed = append(composed, s)
				continue
			}
			if s.param >= len(args) {
				return nil
			}
			composed = append(composed, args[s.param])
		}
		args = composed
		g = inner.target
	}
	for _, s := range args {
		if s.param == 0 && isMethod {
			return nil // the receiver is used
		}
	}
	return &forwarder{target: g, args: args}
}

// isLogCall: a call into zerolog (the start of an event, a field, the message).
func isLogCall(c *ssa.Call) bool {
	f := c.Call.StaticCallee()
	if f == nil {
		return false
	}
	pk := ""
	if f.Pkg != nil {
		pk = f.Pkg.Pkg.Path()
	} else if f.Object() != nil && f.Object().Pkg() != nil {
		pk = f.Object().Pkg().Path()
	}
	return pk == "github.com/rs/zerolog" || strings.HasPrefix(pk, "github.com/rs/zerolog/")
}

func isLoggerType(t types.Type) bool {
	if p, ok := t.(*types.Pointer); ok {
		t = p.Elem()
	}
	n, ok := t.(*types.Named)
	return ok && n.Obj().Pkg() != nil && n.Obj().Pkg().Path() == "github.com/rs/zerolog" && n.Obj().Name() == "Logger"
}

// funcFieldTargets: functions that are the one value of a function-typed field.
var funcFieldTargets map[*ssa.Function]bool

// singleFuncField: v is the load of a function-typed struct field of a module type to which, in the
// whole module, exactly one function is ever assigned (a named function, or a closure that captures
// nothing); that function.
func (p *Program) singleFuncField(v ssa.Value) *ssa.Function {
	ld, ok := v.(*ssa.UnOp)
	if !ok || ld.Op != token.MUL {
		return nil
	}
	fa, ok := ld.X.(*ssa.FieldAddr)
	if !ok {
		return nil
	}
	key := func(a *ssa.FieldAddr) (types.Type, int) {
		t := a.X.Type()
		if pt, ok := t.Underlying().(*types.Pointer); ok {
			t = pt.Elem()
		}
		return t, a.Field
	}
	wantT, wantF := key(fa)
	if n, ok := wantT.(*types.Named); !ok || n.Obj().Pkg() == nil || !InModule(n.Obj().Pkg().Path()) {
		return nil
	}
	var target *ssa.Function
	count := 0
	for _, fn := range p.RepoFns {
		for _, b := range fn.Blocks {
			for _, in := range b.Instrs {
				st, ok := in.(*ssa.Store)
				if !ok {
					continue
				}
				a, ok := st.Addr.(*ssa.FieldAddr)
				if !ok {
					continue
				}
				t, f := key(a)
				if f != wantF || !types.Identical(t, wantT) {
					continue
				}
				count++
				val := st.Val
				if ct, ok := val.(*ssa.ChangeType); ok {
					val = ct.X
				}
				switch x := val.(type) {
				case *ssa.Function:
					target = x
				case *ssa.MakeClosure:
					if f2, ok := x.Fn.(*ssa.Function); ok && len(x.Bindings) == 0 {
						target = f2
					} else {
						return nil
					}
				default:
					return nil
				}
			}
		}
	}
	if count != 1 || target == nil || !IsModuleFn(target) && len(target.Blocks) > 0 {
		return nil
	}
	if target != nil {
		funcFieldTargets[target] = true
	}
	return target
}

// IsModuleFn: fn belongs to the analysed module.
func IsModuleFn(fn *ssa.Function) bool { return InModule(FnPkgPath(fn)) }

// inlineForwarders rewrites the call sites; see the comment at the top.
func (p *Program) inlineForwarders() {
	memo := map[*ssa.Function]*forwarder{}
	busy := map[*ssa.Function]bool{}
	// concrete types of the module
	var concrete []types.Type
	for _, pk := range p.Roots {
		sc := pk.Types.Scope()
		for _, nm := range sc.Names() {
			tn, ok := sc.Lookup(nm).(*types.TypeName)
			if !ok || tn.IsAlias() {
				continue
			}
			if _, isIface := tn.Type().Underlying().(*types.Interface); isIface {
				continue
			}
			if _, generic := tn.Type().(*types.Named); generic && tn.Type().(*types.Named).TypeParams().Len() > 0 {
				continue
			}
			concrete = append(concrete, tn.Type(), types.NewPointer(tn.Type()))
		}
	}
	same := func(a, b *forwarder) bool {
		if a.target != b.target || len(a.args) != len(b.args) {
			return false
		}
		for i := range a.args {
			if a.args[i].param != b.args[i].param {
				return false
			}
			if a.args[i].param < 0 {
				ka, _ := a.args[i].konst.(*ssa.Const)
				kb, _ := b.args[i].konst.(*ssa.Const)
				if ka == nil || kb == nil || !types.Identical(ka.Type(), kb.Type()) || fmt.Sprint(ka.Value) != fmt.Sprint(kb.Value) {
					return false
				}
			}
		}
		return true
	}
	var ifaces []*types.Interface
	for _, pk := range p.Roots {
		sc := pk.Types.Scope()
		for _, nm := range sc.Names() {
			if tn, ok := sc.Lookup(nm).(*types.TypeName); ok && !tn.IsAlias() {
				if it, isIface := tn.Type().Underlying().(*types.Interface); isIface && it.NumMethods() > 0 {
					ifaces = append(ifaces, it)
				}
			}
		}
	}
	implementsModuleIface := func(m *ssa.Function) bool {
		recv := m.Signature.Recv().Type()
		for _, it := range ifaces {
			has := false
			for i := 0; i < it.NumMethods(); i++ {
				if it.Method(i).Name() == m.Name() {
					has = true
				}
			}
			if has && (types.Implements(recv, it) || types.Implements(types.NewPointer(recv), it)) {
				return true
			}
		}
		return false
	}
	seen := map[string]int{}
	funcFieldTargets = map[*ssa.Function]bool{}
	for _, fn := range p.RepoFns {
		for _, b := range fn.Blocks {
			for _, in := range b.Instrs {
				var cc *ssa.CallCommon
				switch x := in.(type) {
				case *ssa.Call:
					cc = &x.Call
				case *ssa.Go:
					cc = &x.Call
				case *ssa.Defer:
					cc = &x.Call
				}
				if cc == nil {
					continue
				}
				var fw *forwarder
				var actual []ssa.Value
				var via string
				if cc.IsInvoke() {
					iface, _ := cc.Value.Type().Underlying().(*types.Interface)
					if iface == nil {
						continue
					}
					if n, ok := cc.Value.Type().(*types.Named); !ok || n.Obj().Pkg() == nil || !InModule(n.Obj().Pkg().Path()) {
						continue // only interfaces the module declares: nothing outside implements them
					}
					ok := true
					for _, t := range concrete {
						if !types.Implements(t, iface) {
							continue
						}
						sel := p.SSA.MethodSets.MethodSet(t).Lookup(cc.Method.Pkg(), cc.Method.Name())
						if sel == nil {
							ok = false
							break
						}
						mf := p.SSA.MethodValue(sel)
						f := p.forwarderOf(mf, memo, busy)
						if os.Getenv("CRSVERIF_FWD") != "" {
							fmt.Printf("INVOKE in %s: %v impl %v -> %v fw=%v\n", FnName(fn), in, t, mf, f)
						}
						if f == nil || (fw != nil && !same(fw, f)) {
							ok = false
							break
						}
						if fw == nil {
							fw = f
							via = FnName(mf)
						}
					}
					if !ok || fw == nil {
						continue
					}
					actual = append([]ssa.Value{cc.Value}, cc.Args...)
				} else {
					// a call through a function-typed field that is assigned exactly one function in the
					// whole module (a seam made of func fields set in the constructor) is a call of that
					// function
					if cc.StaticCallee() == nil {
						if target := p.singleFuncField(cc.Value); target != nil {
							cc.Value = target
							seen[fmt.Sprintf("func field called as %s", FnName(target))]++
						}
					}
					sf := cc.StaticCallee()
					if sf == nil || !IsModuleFn(sf) || sf == fn {
						continue
					}
					if _, isClosure := cc.Value.(*ssa.MakeClosure); isClosure {
						continue
					}
					// only methods behind an interface of the module (the production half of a
					// seam) and the synthetic wrappers around them: any other helper that
					// forwards is left for the rules to judge
					if !funcFieldTargets[sf] && (sf.Signature.Recv() == nil || !(fn.Synthetic != "" || implementsModuleIface(sf))) {
						continue
					}
					fw = p.forwarderOf(sf, memo, busy)
					if fw == nil {
						continue
					}
					via = FnName(sf)
					actual = cc.Args
				}
				var newArgs []ssa.Value
				bad := false
				for _, s := range fw.args {
					switch {
					case s.param < 0:
						newArgs = append(newArgs, s.konst)
					case s.param < len(actual):
						newArgs = append(newArgs, actual[s.param])
					default:
						bad = true
					}
				}
				if bad {
					continue
				}
				cc.Method = nil
				cc.Value = fw.target
				cc.Args = newArgs
				seen[fmt.Sprintf("%s called as %s", via, FnName(fw.target))]++
				if os.Getenv("CRSVERIF_FWD") != "" {
					fmt.Printf("REWROTE in %s %p: %v invoke=%v\n", FnName(fn), in, in, cc.IsInvoke())
				}
			}
		}
	}
	for k, n := range seen {
		p.Forwarded = append(p.Forwarded, fmt.Sprintf("%s (%d call sites)", k, n))
	}
	sort.Strings(p.Forwarded)
	if len(seen) == 0 {
		return
	}
	// forwarders nothing refers to any more are no longer part of the program the rules look at
	used := map[*ssa.Function]bool{}
	for _, fn := range p.RepoFns {
		for _, b := range fn.Blocks {
			for _, in := range b.Instrs {
				for _, op := range in.Operands(nil) {
					if op == nil || *op == nil {
						continue
					}
					if f, ok := (*op).(*ssa.Function); ok {
						used[f] = true
					}
				}
			}
		}
	}
	// a forwarding function whose only mention is its assignment to the function-typed field
	// through which all its (rewritten) calls went
	onlyStoredInField := func(f *ssa.Function) bool {
		n := 0
		for _, fn := range p.RepoFns {
			for _, b := range fn.Blocks {
				for _, in := range b.Instrs {
					for _, op := range in.Operands(nil) {
						if op == nil || *op == nil {
							continue
						}
						v := *op
						if mc, ok := v.(*ssa.MakeClosure); ok && mc.Fn == ssa.Value(f) {
							v = f
						}
						if v != ssa.Value(f) {
							continue
						}
						switch x := in.(type) {
						case *ssa.MakeClosure:
							// the closure value itself: its uses are counted where it is used
						case *ssa.ChangeType:
							_ = x
						case *ssa.Store:
							if _, isField := x.Addr.(*ssa.FieldAddr); !isField {
								return false
							}
							n++
						default:
							return false
						}
					}
				}
			}
		}
		return n > 0
	}
	var kept []*ssa.Function
	for _, fn := range p.RepoFns {
		if fw := memo[fn]; fw != nil && !used[fn] && fn.Signature.Recv() != nil && !p.mayBeInvoked(fn, concrete) {
			continue
		}
		if fw := memo[fn]; fw != nil && funcFieldTargets[fn] && fn.Signature.Recv() == nil && onlyStoredInField(fn) {
			continue
		}
		kept = append(kept, fn)
	}
	p.RepoFns = kept
}

// mayBeInvoked: some interface method call left in the program can dispatch to fn.
func (p *Program) mayBeInvoked(fn *ssa.Function, concrete []types.Type) bool {
	for _, g := range p.RepoFns {
		for _, b := range g.Blocks {
			for _, in := range b.Instrs {
				var cc *ssa.CallCommon
				switch x := in.(type) {
				case *ssa.Call:
					cc = &x.Call
				case *ssa.Go:
					cc = &x.Call
				case *ssa.Defer:
					cc = &x.Call
				}
				if cc == nil || !cc.IsInvoke() || cc.Method.Name() != fn.Name() {
					continue
				}
				iface, _ := cc.Value.Type().Underlying().(*types.Interface)
				if iface == nil {
					continue
				}
				recv := fn.Signature.Recv().Type()
				if types.Implements(recv, iface) || types.Implements(types.NewPointer(recv), iface) {
					return true
				}
			}
		}
	}
	// handed to code outside the module as an interface of another package
	for _, g := range p.RepoFns {
		for _, b := range g.Blocks {
			for _, in := range b.Instrs {
				mi, ok := in.(*ssa.MakeInterface)
				if !ok {
					continue
				}
				if n, isNamed := mi.Type().(*types.Named); isNamed && n.Obj().Pkg() != nil && InModule(n.Obj().Pkg().Path()) {
					continue
				}
				recv := fn.Signature.Recv().Type()
				t := mi.X.Type()
				if types.Identical(t, recv) || types.Identical(t, types.NewPointer(recv)) || types.Identical(types.NewPointer(t), recv) {
					return true
				}
			}
		}
	}
	return false
}
