// Package load type-checks the crs-toolchain working tree and builds its SSA
// form. Nothing of the repository is executed.
package load

import (
	"fmt"
	"go/ast"
	"go/token"
	"go/types"
	"os"
	"path/filepath"
	"sort"
	"strings"

	"golang.org/x/tools/go/packages"
	"golang.org/x/tools/go/ssa"
	"golang.org/x/tools/go/ssa/ssautil"
)

// ModulePath is the module whose functions are the analysis universe.
const ModulePath = "github.com/coreruleset/crs-toolchain/v2"

// MinRootPackages is the number of non-test packages confirmed by hand on the
// pinned tree. Fewer means that the loader did not see the whole build.
const MinRootPackages = 13

// Program is the loaded, type-checked and SSA-built repository.
type Program struct {
	Dir      string
	Fset     *token.FileSet
	Roots    []*packages.Package          // packages of the module
	All      map[string]*packages.Package // every package of the closure by path
	SSA      *ssa.Program
	SSAPkgs  map[string]*ssa.Package // by package path
	RepoFns  []*ssa.Function         // every function of the module incl. closures, sorted
	fnByName map[string]*ssa.Function
	Overlay  map[string][]byte
	// Forwarded lists the pass-through methods whose call sites were rewritten into the
	// call they forward to (forward.go).
	Forwarded []string
}

// Options for Load.
type Options struct {
	Dir     string
	Overlay map[string][]byte // absolute file name -> replacement contents
}

// Load loads ./... below opts.Dir.
func Load(opts Options) (*Program, error) {
	dir := opts.Dir
	env := append(os.Environ(),
		"GOFLAGS=-mod=mod", "GOPROXY=off", "GOSUMDB=off", "GOWORK=off", "GOTOOLCHAIN=local", "CGO_ENABLED=0")
	cfg := &packages.Config{
		Mode:    packages.LoadAllSyntax,
		Dir:     dir,
		Env:     env,
		Tests:   false,
		Overlay: opts.Overlay,
	}
	pkgs, err := packages.Load(cfg, "./...")
	if err != nil {
		return nil, fmt.Errorf("packages.Load: %w", err)
	}
	if len(pkgs) == 0 {
		return nil, fmt.Errorf("no packages loaded from %s", dir)
	}
	var errs []string
	packages.Visit(pkgs, nil, func(p *packages.Package) {
		for _, e := range p.Errors {
			errs = append(errs, fmt.Sprintf("%s: %s", p.PkgPath, e.Error()))
		}
	})
	if len(errs) > 0 {
		sort.Strings(errs)
		if len(errs) > 10 {
			errs = errs[:10]
		}
		return nil, fmt.Errorf("type errors:\n  %s", strings.Join(errs, "\n  "))
	}
	p := &Program{Dir: dir, Fset: pkgs[0].Fset, All: map[string]*packages.Package{}, SSAPkgs: map[string]*ssa.Package{}, Overlay: opts.Overlay}
	packages.Visit(pkgs, nil, func(pk *packages.Package) { p.All[pk.PkgPath] = pk })
	for _, pk := range pkgs {
		if pk.PkgPath == ModulePath || strings.HasPrefix(pk.PkgPath, ModulePath+"/") {
			p.Roots = append(p.Roots, pk)
		}
	}
	sort.Slice(p.Roots, func(i, j int) bool { return p.Roots[i].PkgPath < p.Roots[j].PkgPath })
	if len(p.Roots) < MinRootPackages {
		return nil, fmt.Errorf("only %d packages of %s loaded, expected at least %d", len(p.Roots), ModulePath, MinRootPackages)
	}
	// The soundness argument of the call graph excludes reflection and unsafe.
	for _, pk := range p.Roots {
		for imp := range pk.Imports {
			if imp == "reflect" || imp == "unsafe" {
				return nil, fmt.Errorf("package %s imports %s: the call-graph assumptions do not hold", pk.PkgPath, imp)
			}
		}
		for _, f := range pk.Syntax {
			for _, cg := range f.Comments {
				for _, c := range cg.List {
					if strings.HasPrefix(c.Text, "//go:build") && cg.End() < f.Package {
						return nil, fmt.Errorf("%s has a build constraint (%s): configurations are not enumerated", p.Fset.Position(c.Pos()), c.Text)
					}
				}
			}
		}
	}

	prog, ssaPkgs := ssautil.AllPackages(pkgs, ssa.InstantiateGenerics)
	prog.Build()
	p.SSA = prog
	_ = ssaPkgs
	for _, sp := range prog.AllPackages() {
		p.SSAPkgs[sp.Pkg.Path()] = sp
	}
	p.fnByName = map[string]*ssa.Function{}
	for fn := range ssautil.AllFunctions(prog) {
		if fn.Pkg == nil && fn.Parent() == nil && fn.Origin() == nil {
			// synthetic wrappers/thunks without a package: keep only if the
			// underlying object is of the module
			if fn.Object() == nil || fn.Object().Pkg() == nil || !InModule(fn.Object().Pkg().Path()) {
				continue
			}
		}
		if !p.IsRepoFn(fn) {
			continue
		}
		if fn.Synthetic != "" && fn.Blocks == nil {
			continue
		}
		p.RepoFns = append(p.RepoFns, fn)
	}
	sort.Slice(p.RepoFns, func(i, j int) bool {
		a, b := p.RepoFns[i], p.RepoFns[j]
		if a.String() != b.String() {
			return a.String() < b.String()
		}
		return a.Pos() < b.Pos()
	})
	p.inlineForwarders()
	for _, fn := range p.RepoFns {
		p.fnByName[fn.String()] = fn
	}
	if len(p.RepoFns) < 150 {
		return nil, fmt.Errorf("only %d repository functions found in SSA, expected at least 150", len(p.RepoFns))
	}
	return p, nil
}

// InModule reports whether a package path is in the analysed module.
func InModule(path string) bool {
	return path == ModulePath || strings.HasPrefix(path, ModulePath+"/")
}

// FnPkgPath returns the package path a function belongs to (through its
// parents for closures), or "".
func FnPkgPath(fn *ssa.Function) string {
	for f := fn; f != nil; f = f.Parent() {
		if f.Pkg != nil {
			return f.Pkg.Pkg.Path()
		}
		if f.Object() != nil && f.Object().Pkg() != nil {
			return f.Object().Pkg().Path()
		}
		if o := f.Origin(); o != nil && o.Pkg != nil {
			return o.Pkg.Pkg.Path()
		}
	}
	return ""
}

// IsRepoFn reports whether fn is a function (or closure, or init) of the module.
func (p *Program) IsRepoFn(fn *ssa.Function) bool {
	return InModule(FnPkgPath(fn))
}

// ShortPkg strips the module prefix from a package path.
func ShortPkg(path string) string {
	if path == ModulePath {
		return "main"
	}
	return strings.TrimPrefix(path, ModulePath+"/")
}

// FnName gives a stable, position-free name: pkg.Func, pkg.(*T).M, pkg.Func$1.
func FnName(fn *ssa.Function) string {
	if fn == nil {
		return "<nil>"
	}
	s := fn.String()
	s = strings.ReplaceAll(s, ModulePath+"/", "")
	s = strings.ReplaceAll(s, ModulePath, "main")
	return s
}

// Func finds a repository function by FnName.
func (p *Program) Func(name string) *ssa.Function {
	for _, fn := range p.RepoFns {
		if FnName(fn) == name {
			return fn
		}
	}
	return nil
}

// Pos renders a position relative to the repository directory.
func (p *Program) Pos(pos token.Pos) string {
	if !pos.IsValid() {
		return "-"
	}
	po := p.Fset.Position(pos)
	rel, err := filepath.Rel(p.Dir, po.Filename)
	if err != nil || strings.HasPrefix(rel, "..") {
		rel = po.Filename
	}
	return fmt.Sprintf("%s:%d", rel, po.Line)
}

// FnPos gives a position for a function, falling back to its parent.
func (p *Program) FnPos(fn *ssa.Function) string {
	for f := fn; f != nil; f = f.Parent() {
		if f.Pos().IsValid() {
			return p.Pos(f.Pos())
		}
	}
	return "-"
}

// InstrPos finds the best position of an instruction: its own, or that of the
// closest earlier instruction of the block that has one.
func (p *Program) InstrPos(in ssa.Instruction) string {
	if in.Pos().IsValid() {
		return p.Pos(in.Pos())
	}
	if v, ok := in.(ssa.Value); ok {
		_ = v
	}
	b := in.Block()
	if b != nil {
		idx := -1
		for i, x := range b.Instrs {
			if x == in {
				idx = i
				break
			}
		}
		for i := idx - 1; i >= 0; i-- {
			if b.Instrs[i].Pos().IsValid() {
				return p.Pos(b.Instrs[i].Pos())
			}
		}
		return p.FnPos(b.Parent())
	}
	return "-"
}

// PkgOf returns the loaded package of the module with the given short path
// ("cmd", "regex/parser", ...).
func (p *Program) PkgOf(short string) *packages.Package {
	path := ModulePath + "/" + short
	if short == "main" || short == "" {
		path = ModulePath
	}
	return p.All[path]
}

// FileOf returns the syntax file that contains pos.
func (p *Program) FileOf(pos token.Pos) (*packages.Package, *ast.File) {
	for _, pk := range p.Roots {
		for _, f := range pk.Syntax {
			if f.Pos() <= pos && pos <= f.End() {
				return pk, f
			}
		}
	}
	return nil, nil
}

// TypesInfoFor returns the types.Info of the repository package containing pos.
func (p *Program) TypesInfoFor(pos token.Pos) *types.Info {
	pk, _ := p.FileOf(pos)
	if pk == nil {
		return nil
	}
	return pk.TypesInfo
}
