// crsverif decides the crs-toolchain properties by static analysis of /repo.
package main

import (
	"flag"
	"fmt"
	"os"

	"crsverif/internal/driver"
)

func main() {
	var o driver.Options
	flag.StringVar(&o.Property, "property", "", "property id (C02 ... C20)")
	flag.StringVar(&o.Tier, "tier", "quick", "quick or thorough")
	flag.StringVar(&o.Repo, "repo", "/repo", "repository working tree")
	flag.StringVar(&o.VerifDir, "verif", "/verif", "verification directory (known findings, exemptions, evidence)")
	flag.StringVar(&o.Replay, "replay", "", "replay file: re-evaluate that obligation")
	flag.StringVar(&o.Dump, "dump", "", "debug: dump a model (commands, graph, loud, rules)")
	flag.StringVar(&o.Mutation, "mutation", "", "internal: apply this mutation id as overlay and report whether the rules fire")
	flag.StringVar(&o.MutSummary, "mutation-summary", "", "file with the corpus results to embed in the evidence (thorough tier)")
	flag.StringVar(&o.Patch, "patch", "", "analyse the tree with this unified diff applied as an overlay (the tree itself is not modified)")
	flag.BoolVar(&o.NoEvidence, "no-evidence", false, "do not write the evidence file")
	flag.BoolVar(&o.Verbose, "v", false, "print every obligation")
	flag.Parse()
	code := driver.Main(o)
	if code != 0 {
		fmt.Fprintf(os.Stderr, "crsverif: exit %d\n", code)
	}
	os.Exit(code)
}
