#!/bin/bash
# try_all_seeds.sh <dir-with-Cxx-out> [ids...]: for each patch print which properties report
BASE=${1:-/tmp/seed}; shift
IDS=${@:-$(ls $BASE | grep -- '-out$' | sed 's/-out//')}
for id in $IDS; do
  for p in $BASE/$id-out/patch*.diff; do
    [ -f "$p" ] || continue
    out=$(/verif/tools/try_patch.sh "$p" 2>&1)
    reps=$(echo "$out" | grep '^PROP .* REPORTS' | awk '{print $2}' | tr '\n' ' ')
    own=$(echo "$out" | grep -c "^PROP $id REPORTS")
    echo "== $id $(basename $p): own=$own reports=[${reps}]"
    echo "$out" | grep -A3 "^PROP .* REPORTS" | grep '^    ' | cut -c1-230 | head -6
  done
done
