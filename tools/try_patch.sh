#!/bin/bash
# try_patch.sh <patch.diff> : applies the patch to /repo's working tree, runs every
# check in one process, prints which properties report, and restores /repo.
set -u
P=$(readlink -f "$1")
cd /repo || exit 2
if [ -n "$(git status --porcelain)" ]; then echo "/repo is not clean"; exit 2; fi
git apply "$P" || { echo "patch does not apply"; exit 2; }
/verif/bin/crsverif -property ALL -repo /repo -verif /verif -no-evidence 2>&1 | grep -v '^crsverif: exit'
rc=$?
git checkout -q -- . && git clean -fdq
exit 0
