#!/bin/bash
# try_patch.sh <patch.diff>: runs every check on /repo's current source with the patch
# applied as an overlay (copies of the affected files; /repo itself is not modified) and
# prints which properties report.
export GOFLAGS=-mod=mod GOPROXY=off GOSUMDB=off GOTOOLCHAIN=local; unset GOWORK
/verif/bin/crsverif -property ALL -repo ${CRSVERIF_REPO:-/repo} -verif /verif -no-evidence -patch "$(readlink -f "$1")" 2>&1 | grep -v '^crsverif: exit'
exit 0
