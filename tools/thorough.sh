#!/bin/bash
# thorough tier extras; filled in later
exit 0
