#!/usr/bin/env python3-vt
import json, jsonschema, sys, glob, os
jsonschema.validate(json.load(open('/verif/MANIFEST.json')), json.load(open('/root/.vp/MANIFEST.schema.json')))
es = json.load(open('/root/.vp/EVIDENCE.schema.json'))
m = json.load(open('/verif/MANIFEST.json'))
for c in m['checks']:
    f = c['evidence_file']
    if not os.path.exists(f):
        print('missing evidence', f); continue
    e = json.load(open(f))
    jsonschema.validate(e, es)
    assert e['level'] == c['level_claimed']['category'], (f, e['level'])
print('manifest and', len(m['checks']), 'evidence files valid')
