#!/usr/bin/env python3
"""wire.py PID 'c.RuleX(), c.RuleY()' — append rule calls to a property's result list in prop_all.go."""
import sys, re
pid, extra = sys.argv[1], sys.argv[2]
p = '/verif/checker/internal/rules/prop_all.go'
s = open(p).read()
i = s.index('prop("%s"' % pid)
j = s.index('\n\t\t})', i)
# last "}" before j closes the []*Result{...} literal (or an append(...) call)
seg = s[i:j]
k = seg.rindex('}')
if seg[:k].rstrip().endswith(','):
    new = seg[:k] + ' ' + extra + seg[k:]
else:
    new = seg[:k] + ', ' + extra + seg[k:]
s = s[:i] + new + s[j:]
open(p, 'w').write(s)
print('wired', pid, extra)
