#!/usr/bin/env python3
"""Regenerates /verif/MANIFEST.json from the checker's property table
(crsverif -dump props) and the not-applicable table below."""
import json, subprocess, os, sys
V = os.path.dirname(os.path.dirname(os.path.abspath(__file__)))
NA = {
 "C01": "language equivalence between an assembly program and the text printed by a third-party optimiser plus string surgery, over all programs and subject strings: needs an equivalence oracle over runtime strings (executing the compiler); no structural clause that is a sound necessary condition beyond those claimed under C02/C19 (DESIGN.md section 7)",
 "C04": "membership of every evasion-interleaved command word in the language of the generated regex for every configuration: a question about runtime strings after optimisation; the only structural part (a six-entry pattern-selection table) is already pinned by the unit tests with distinct dummy tokens (DESIGN.md section 7)",
}
env = dict(os.environ, GOFLAGS="-mod=mod", GOPROXY="off", GOSUMDB="off", GOTOOLCHAIN="local")
props = json.loads(subprocess.check_output([os.path.join(V, "bin/crsverif"), "-dump", "props"], env=env))
ids = [json.loads(l)["id"] for l in open(os.path.join(V, "properties.jsonl"))]
claimed = {p["ID"]: p for p in props}
checks = []
for i in ids:
    if i not in claimed:
        continue
    p = claimed[i]
    checks.append({
        "property_id": i,
        "quick_cmd": f"./check {i} --tier quick",
        "thorough_cmd": f"./check {i} --tier thorough",
        "evidence_file": f"/verif/evidence/{i}.json",
        "replay_cmd_template": f"./check {i} --replay {{path}}",
        "engine": "crsverif",
        "level_claimed": {
            "category": p["Level"],
            "text": p["Explanation"] + " DOES NOT DECIDE: " + p["DoesNotDecide"],
            "design_ref": "DESIGN.md section 5, " + i,
        },
        "level_note": "Assumes: " + "; ".join(p["Assumptions"]),
        "technique": p["Technique"],
    })
na = []
for i in ids:
    if i in claimed:
        continue
    na.append({"property_id": i, "reason": NA.get(i, "check not built yet (work in progress); see DESIGN.md section 5")})
m = {
 "version": 1,
 "setup_cmd": "mkdir -p bin evidence && cd checker && GOFLAGS=-mod=mod GOPROXY=off GOSUMDB=off GOTOOLCHAIN=local CGO_ENABLED=0 go build -o ../bin/crsverif ./cmd/crsverif",
 "hooks": {
  "guard": "verif",
  "enable": "no hooks: the checks are static analyses of /repo's source; nothing in /repo is instrumented, built or run by them",
  "baseline_off_cmd": "/verif/tools/baseline.sh /repo",
  "source_commits": [],
  "add_only": True,
 },
 "engines": [{
  "name": "crsverif",
  "path": "/verif/checker",
  "serves_properties": [c["property_id"] for c in checks],
  "kind_free_text": "repository-specific static analyser (Go, golang.org/x/tools v0.29.0: go/packages, go/ssa): type-checked AST, SSA control-flow paths, a repository call graph, and regular-language automata built from the regexp constants of the source",
 }],
 "checks": checks,
 "not_applicable": na,
 "notes": "Technique family: static analysis. Every check loads /repo's current working tree, decides its rules on the type-checked/SSA program and never runs repository code. exit 0 = all obligations discharged/exempt/known; exit 1 = VIOLATION lines (an obligation a rule could not decide, or a rule that no longer finds the constructs it is about, is reported as not held: UNDECIDED lines say why and the replay file carries verdict=undecided); exit 2 = the checker itself could not run (load error, panic). Known findings: /verif/known_findings.json; reviewed exemptions: /verif/exemptions.json.",
}
json.dump(m, open(os.path.join(V, "MANIFEST.json"), "w"), indent=1)
print("claimed:", [c["property_id"] for c in checks], "not applicable:", [n["property_id"] for n in na])
