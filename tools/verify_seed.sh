#!/bin/bash
# verify_seed.sh <patch.diff> <demo.sh> : confirms in a scratch worktree that the
# change compiles, keeps the 236 baseline tests passing, and that the demonstration
# passes on the clean tree and fails on the changed tree.
set -u
P=$(readlink -f "$1"); D=$(readlink -f "$2")
export GOFLAGS=-mod=mod GOPROXY=off GOSUMDB=off GOTOOLCHAIN=local; unset GOWORK
W=$(mktemp -d /tmp/vseed.XXXXXX)
git -C /repo worktree add -q --detach "$W/t" HEAD || exit 2
clean() { git -C /repo worktree remove --force "$W/t" 2>/dev/null; rm -rf "$W"; }
trap clean EXIT
bash "$D" "$W/t" >"$W/clean.out" 2>&1; c=$?
( cd "$W/t" && git apply "$P" ) || { echo "RESULT apply-failed"; exit 1; }
( cd "$W/t" && go build ./... ) >"$W/build.out" 2>&1 || { echo "RESULT build-failed"; cat "$W/build.out" | head -5; exit 1; }
bl=$(/verif/tools/baseline.sh "$W/t" | head -1)
bash "$D" "$W/t" >"$W/mut.out" 2>&1; m=$?
echo "RESULT demo_clean=$c demo_changed=$m baseline: $bl"
[ $c -eq 0 ] && [ $m -ne 0 ] && echo "$bl" | grep -q "baseline_missing=0" && echo "CONFIRMED" || { echo "NOT-CONFIRMED"; tail -3 "$W/mut.out"; }
