#!/bin/bash
# Runs the sensitivity corpus (checker/mutations/corpus.json): each recorded
# mutation is applied to /repo's current source as a go/packages overlay (no
# copy of the repository is made, nothing is executed) in its own process and
# the rules of its property must report it (or stay silent for benign ones).
# usage: mutations.sh [property-id|all] ; prints one line per mutation and a summary.
set -u
cd "$(dirname "$0")/.."
WHICH=${1:-all}
export GOFLAGS=-mod=mod GOPROXY=off GOSUMDB=off GOTOOLCHAIN=local CGO_ENABLED=0
unset GOWORK
REPO=${CRSVERIF_REPO:-/repo}
ids=$(python3 - "$WHICH" <<'PY'
import json,sys
for m in json.load(open('checker/mutations/corpus.json')):
    if sys.argv[1] in ('all', m['property']): print(m['id'])
PY
)
[ -z "$ids" ] && { echo "no mutations recorded for $WHICH"; exit 0; }
echo "$ids" | xargs -P 6 -I{} sh -c "./bin/crsverif -mutation {} -repo $REPO -verif $(pwd) -no-evidence 2>/dev/null | grep '^MUTATION' || echo 'MUTATION {}: ERROR (no verdict)'" | sort > /tmp/mut.$$
cat /tmp/mut.$$
d=$(grep -c 'DETECTED\|UNDECIDED-AS-DESIGNED' /tmp/mut.$$); s=$(grep -c 'SILENT-AS-EXPECTED' /tmp/mut.$$); m=$(grep -c 'MISSED' /tmp/mut.$$); f=$(grep -c 'FALSE-ALARM' /tmp/mut.$$); k=$(grep -c 'SKIPPED' /tmp/mut.$$); b=$(grep -c ': BROKEN\|: ERROR' /tmp/mut.$$)
echo "SUMMARY mutations=$(wc -l < /tmp/mut.$$) detected=$d silent_as_expected=$s missed=$m false_alarms=$f skipped=$k broken=$b"
rm -f /tmp/mut.$$
[ "$f" -eq 0 ]
