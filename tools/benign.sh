#!/bin/bash
# benign.sh: analyses /repo with each recorded behaviour-preserving refactoring (benign/*.diff,
# written by independent sub-agents) applied as an overlay and runs all checks: any report is a
# false alarm of the checker. /repo is never modified.
set -u
cd /verif
export GOFLAGS=-mod=mod GOPROXY=off GOSUMDB=off GOTOOLCHAIN=local; unset GOWORK
ls benign/*.diff | xargs -P 6 -I{} sh -c 'out=$(bin/crsverif -property ALL -no-evidence -patch {} 2>&1); reps=$(echo "$out" | grep "^PROP .* REPORTS" | cut -d" " -f2 | tr "\n" " "); if echo "$out" | grep -q "^PATCH .* SKIPPED"; then echo "SKIPPED {}"; elif [ -n "$reps" ]; then echo "FALSE-ALARM {}: $reps :: $(echo "$out" | grep "^    \[" | cut -c1-200 | head -4 | tr "\n" "~")"; else echo "silent {}"; fi' | sort > /tmp/benign.$$
grep -v '^silent' /tmp/benign.$$
echo "SUMMARY benign_refactorings=$(grep -c . /tmp/benign.$$) silent=$(grep -c '^silent' /tmp/benign.$$) false_alarms=$(grep -c '^FALSE-ALARM' /tmp/benign.$$) skipped=$(grep -c '^SKIPPED' /tmp/benign.$$)"
rc=0; grep -q '^FALSE-ALARM' /tmp/benign.$$ && rc=1; rm -f /tmp/benign.$$; exit $rc
