#!/bin/bash
# benign.sh: applies every recorded behaviour-preserving refactoring (benign/*.diff, written by
# independent sub-agents) to /repo's working tree in turn and runs all checks: any report is a
# false alarm of the checker. Restores /repo after each.
set -u
cd /verif
[ -n "$(git -C /repo status --porcelain)" ] && { echo "/repo is not clean"; exit 2; }
n=0; bad=0
for p in benign/*.diff; do
  n=$((n+1))
  git -C /repo apply "$(readlink -f $p)" || { echo "$p: does not apply (tree moved on): skipped"; continue; }
  out=$(bin/crsverif -property ALL -repo /repo -verif /verif -no-evidence 2>&1)
  git -C /repo checkout -q -- . ; git -C /repo clean -fdq
  reps=$(echo "$out" | grep '^PROP .* REPORTS' | awk '{print $2}' | tr '\n' ' ')
  if [ -n "$reps" ]; then bad=$((bad+1)); echo "FALSE-ALARM $p: $reps"; echo "$out" | grep '^    \[' | cut -c1-240 | head -3; fi
done
echo "SUMMARY benign_refactorings=$n false_alarms=$bad"
[ $bad -eq 0 ]
