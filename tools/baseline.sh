#!/bin/bash
# Runs the repository's test suite (guard off: there are no hooks) and compares
# the passing set with /root/.vp/BASELINE.json's stable_pass list.
# usage: baseline.sh [repo-dir]
set -u
REPO=${1:-/repo}
export GOFLAGS=-mod=mod GOPROXY=off GOSUMDB=off GOTOOLCHAIN=local
unset GOWORK
OUT=$(mktemp)
(cd "$REPO" && go test -json -vet=off -count=1 -timeout 25m ./... > "$OUT" 2>/dev/null)
python3 - "$OUT" <<'PY'
import json,sys
passed=set(); failed=set()
for l in open(sys.argv[1]):
    try: e=json.loads(l)
    except Exception: continue
    if e.get('Test') and e.get('Action') in('pass','fail'):
        (passed if e['Action']=='pass' else failed).add(e['Package']+'::'+e['Test'])
base=set(json.load(open('/root/.vp/BASELINE.json'))['stable_pass'])
missing=sorted(base-passed)
print(f"passed={len(passed)} failed={len(failed)} baseline={len(base)} baseline_missing={len(missing)}")
for m in missing: print("MISSING", m)
sys.exit(1 if missing else 0)
PY
rc=$?
rm -f "$OUT"
exit $rc
