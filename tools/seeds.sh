#!/bin/bash
# seeds.sh: analyses /repo with every confirmed seeded change (seeded/<id>-<n>/patch.diff) applied
# as an overlay (the tree is not modified), runs all checks in one process, and records which
# properties/rules report. Writes seeded/RESULTS.json and seeded/RESULTS.md.
set -u
cd /verif
export GOFLAGS=-mod=mod GOPROXY=off GOSUMDB=off GOTOOLCHAIN=local; unset GOWORK
python3 - <<'PY'
import json,subprocess,os,re,glob
res={}
from concurrent.futures import ThreadPoolExecutor
dirs=sorted((d for d in glob.glob('/verif/seeded/C*-[0-9]*') if os.path.isdir(d)), key=lambda d:(d.rsplit('-',1)[0], int(d.rsplit('-',1)[1])))
def run(d):
    return subprocess.run(['/verif/bin/crsverif','-property','ALL','-repo','/repo','-verif','/verif','-no-evidence','-patch',d+'/patch.diff'],capture_output=True,text=True).stdout
with ThreadPoolExecutor(6) as ex:
    outs=list(ex.map(run,dirs))
for d,out in zip(dirs,outs):
    sid=os.path.basename(d); pid=sid.split('-')[0]
    cur=None; rep={}
    for l in out.splitlines():
        m=re.match(r'PROP (\S+) REPORTS',l)
        if m: cur=m.group(1); rep[cur]=[]; continue
        if l.startswith('PROP'): cur=None; continue
        if cur and l.startswith('    ['):
            m=re.match(r'\s+\[(\w+)\] ([A-Z][A-Z0-9-]+)',l)
            kind=m.group(1) if m else '?'; rule=m.group(2) if m else '?'
            rep[cur].append((kind,rule,l.strip()[:300]))
    own=rep.get(pid,[])
    verdict='missed'
    if any(k=='violated' for k,_,_ in own): verdict='VIOLATION'
    elif own: verdict='undecided-only'
    others=sorted(p for p in rep if p!=pid and any(k=='violated' for k,_,_ in rep[p]))
    res[sid]={'property':pid,'own_check':verdict,'own_rules':sorted({r for k,r,_ in own if k=='violated'}) or sorted({r for _,r,_ in own}),
              'other_checks_with_violation':others,'first_report':(own[0][2] if own else '')}
    meta=json.load(open(d+'/meta.json')); meta['checks']={'own_check':verdict,'rules':res[sid]['own_rules'],'other_checks_with_violation':others,'first_report':res[sid]['first_report']}
    json.dump(meta,open(d+'/meta.json','w'),indent=1)
    print(sid,verdict,res[sid]['own_rules'],others)
json.dump(res,open('/verif/seeded/RESULTS.json','w'),indent=1)
with open('/verif/seeded/RESULTS.md','w') as f:
    f.write('| seeded change | needs to manifest | own check | rules reporting | other checks reporting |\n|---|---|---|---|---|\n')
    for sid,r in res.items():
        meta=json.load(open(f'/verif/seeded/{sid}/meta.json'))
        need=meta['needs_to_manifest'].replace('|','\\|')
        if len(need)>240: need=need[:237].rsplit(' ',1)[0]+' …'
        f.write(f"| {sid} | {need} | {r['own_check']} | {', '.join(r['own_rules'])} | {', '.join(r['other_checks_with_violation'])} |\n")
n=len(res); v=sum(1 for r in res.values() if r['own_check']=='VIOLATION'); u=sum(1 for r in res.values() if r['own_check']=='undecided-only')
print(f"SUMMARY seeds={n} own_check_violation={v} undecided_only={u} missed={n-v-u}")
PY
