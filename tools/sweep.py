#!/usr/bin/env python3
"""sweep.py <operator>: operator-based mutation sweep over /repo's non-test sources, analysed as
overlays (the tree is not modified, nothing is executed). Prints, per mutated site, which
properties report. Sites no check reports are candidates for review (gap or equivalent mutant).
operators: fatal2error, reterr2nil, dropcheck, delstmt (delete a one-line call or assignment statement; mutants that no longer type-check are dropped), regex (pattern literals: anchors, quantifiers, lazy/greedy)"""
import sys,re,os,subprocess,glob,difflib
from concurrent.futures import ThreadPoolExecutor
op=sys.argv[1]
out='/tmp/sweep/'+op; os.makedirs(out,exist_ok=True)
files=[f for f in glob.glob('/repo/**/*.go',recursive=True) if not f.endswith('_test.go')]
sites=[]
for f in sorted(files):
    lines=open(f).read().split('\n')
    if lines and lines[-1]=='': lines.pop()
    for i,l in enumerate(lines):
        new=None
        if op=='fatal2error' and re.search(r'logger\.(Fatal|Panic)\(\)',l): new=re.sub(r'logger\.(Fatal|Panic)\(\)','logger.Error()',l)
        if op=='reterr2nil' and re.match(r'^\s*return (.*, )?err$',l): new=re.sub(r'err$','nil',l)
        if op=='dropcheck' and re.match(r'^\s*if err != nil \{$',l): new=l.replace('err != nil','err != nil && false')
        if op=='delstmt' and re.match(r'^\t+[A-Za-z_][\w\.\[\]]*(\(.*\)|\s*=\s*.+|\+\+|\s*\+=\s*.+)$',l) and not re.match(r'^\t+(return|break|continue|defer|go|case|default|logger\.|log\.)\b',l) and ':=' not in l: new='//'+l
        news=[new] if new is not None and new!=l else []
        if op=='regex':
            m=re.search(r'MustCompile\(`([^`]*)`\)',l)
            if m:
                pat=m.group(1); vs=[]
                if pat.startswith('^'): vs.append(pat[1:])
                if pat.endswith('$') and not pat.endswith('\\$'): vs.append(pat[:-1])
                for a_,b_ in (('+','*'),('\\s*','\\s+'),('\\s+','\\s*'),('(.*)','(.*?)'),('(.*?)','(.*)'),('\\d{6}','\\d+'),('(?:','('),('\\S+','.+'),('[a-z]+','[a-zA-Z]+')):
                    k=pat.find(a_)
                    if k>=0: vs.append(pat[:k]+b_+pat[k+len(a_):])
                seenv=set()
                for v in vs:
                    if v!=pat and v not in seenv:
                        seenv.add(v); news.append(l.replace('`'+pat+'`','`'+v+'`'))
        for vi,new in enumerate(news):
          ml=lines[:]; ml[i]=new
          rel=os.path.relpath(f,'/repo')
          d=''.join(difflib.unified_diff([x+'\n' for x in lines],[x+'\n' for x in ml],'a/'+rel,'b/'+rel,n=3))
          p=f'{out}/{rel.replace("/","_")}_{i+1}_{vi}.diff'; open(p,'w').write(d)
          sites.append((rel,i+1,new.strip(),p))
        continue
        ml=lines[:]; ml[i]=new
        rel=os.path.relpath(f,'/repo')
        d=''.join(difflib.unified_diff([x+'\n' for x in lines],[x+'\n' for x in ml],'a/'+rel,'b/'+rel,n=3))
        p=f'{out}/{rel.replace("/","_")}_{i+1}.diff'; open(p,'w').write(d)
        sites.append((rel,i+1,l.strip(),p))
def run(s):
    o=subprocess.run(['/verif/bin/crsverif','-property','ALL','-no-evidence','-patch',s[3]],capture_output=True,text=True).stdout
    reps=re.findall(r'^PROP (\S+) REPORTS',o,re.M)
    if 'SKIPPED' in o: reps=['SKIPPED']
    if not reps and 'PROP C02 ok' not in o: reps=['BROKEN']
    first=re.search(r'^\s+\[(violated|undecided|floor)\] (\S+)',o,re.M)
    return s,reps,(first.group(2) if first else '')
with ThreadPoolExecutor(6) as ex:
    res=list(ex.map(run,sites))
miss=0
for s,reps,first in res:
    print(f"{s[0]}:{s[1]} [{' '.join(reps) or 'NONE'}] {first}  | {s[2][:90]}")
    if not reps or reps==['SKIPPED']: miss+=1
    if reps==['BROKEN']: broken=globals().get('broken',0)+1; globals()['broken']=broken
b=globals().get('broken',0)
print(f"SUMMARY operator={op} sites={len(res)} do_not_typecheck={b} reported={len(res)-miss-b} silent={miss}")
