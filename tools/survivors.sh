#!/bin/bash
# survivors.sh <operator>: for the mutants of `tools/sweep.py <operator>` that no check reports,
# find out which ones the repository's own test suite does not kill either (the interesting ones:
# behaviour changed, suite green, checks silent). Each mutant is applied in a scratch git worktree
# of /repo under /tmp (removed afterwards); /repo itself is never touched.
# usage: survivors.sh <operator> [workers]   (run sweep.py <operator> first; it leaves the diffs in /tmp/sweep/<operator>)
set -u
OP=$1; W=${2:-6}
export GOFLAGS=-mod=mod GOPROXY=off GOSUMDB=off GOTOOLCHAIN=local; unset GOWORK
cd /verif
python3 tools/sweep.py "$OP" > /tmp/sweep/$OP.out 2>&1
grep '\[NONE\]' /tmp/sweep/$OP.out | awk '{print $1}' > /tmp/sweep/$OP.silent
n=$(wc -l < /tmp/sweep/$OP.silent); echo "silent mutants: $n"
run_one() {
  site=$1; OP=$2
  f=$(echo "$site" | sed 's|/|_|g; s|:|_|')
  for d in /tmp/sweep/$OP/${f}_*.diff /tmp/sweep/$OP/${f}.diff; do
    [ -f "$d" ] || continue
    T=$(mktemp -d /tmp/surv.XXXXXX)
    git -C /repo worktree add -q --detach "$T/t" HEAD 2>/dev/null || { rm -rf "$T"; continue; }
    if (cd "$T/t" && git apply "$d" 2>/dev/null && go build ./... 2>/dev/null); then
      r=$(/verif/tools/baseline.sh "$T/t" | head -1)
      case "$r" in *"baseline_missing=0"*) echo "SURVIVOR $d";; *) echo "killed $d";; esac
    else
      echo "nobuild $d"
    fi
    git -C /repo worktree remove --force "$T/t" 2>/dev/null; rm -rf "$T"
  done
}
export -f run_one
cat /tmp/sweep/$OP.silent | xargs -P "$W" -I{} bash -c 'run_one {} '"$OP" > /tmp/sweep/$OP.survivors 2>&1
grep -c SURVIVOR /tmp/sweep/$OP.survivors | sed 's/^/survivors: /'
grep SURVIVOR /tmp/sweep/$OP.survivors | sort
